#!/bin/sh
# bt.sh <patch.diff> <check ids...> : apply one patch to a private scratch copy of /repo (never /repo itself) and run the checks on it
P=$(readlink -f "$1"); shift
mkdir -p /tmp/bt/work
[ -d /tmp/bt/work/target ] || cp -a /verif/.work/target /tmp/bt/work/target
rsync -a --delete --exclude /target --exclude /.git /repo/ /tmp/bt/repo/
patch -p1 -s -f -d /tmp/bt/repo -i "$P" || { echo "DOES NOT APPLY"; exit 2; }
for c in "$@"; do
  VERIF_NO_EVIDENCE=1 VERIF_REPO=/tmp/bt/repo VERIF_WORK=/tmp/bt/work /verif/check $c 2>&1 | grep -v "^\[facts\|^    key\|^VIOLATION" | cut -c1-400 | tail -6
done
