#!/usr/bin/env python3
"""mutsweep.py <property id> [max] : mutation sweep of the checker.

Collects the functions a property's rules anchor on (every body looked up through Run.body), applies single-token mutations
inside those functions in /repo (one at a time, reverted afterwards), re-extracts and runs that property's check.  Prints the
mutants that compile and that NO rule of the property reports ("survivors") for manual triage: each is either an equivalent /
irrelevant mutant or a gap in the rules.  A development tool, not a registered check."""
import importlib, json, os, re, subprocess, sys
import os as _os; _os.environ["VERIF_NO_EVIDENCE"] = "1"   # never let a run against a modified tree rewrite evidence/
HERE = os.path.dirname(os.path.dirname(os.path.abspath(__file__)))
sys.path.insert(0, os.path.join(HERE, "engine", "py")); sys.path.insert(0, HERE)
import facts, rules as R

pid = sys.argv[1]; limit = int(sys.argv[2]) if len(sys.argv) > 2 else 400
F = facts.load()
seen = []
class Rec(R.Run):
    def body(self, rule, path):
        b = super().body(rule, path)
        if b is not None and b not in seen: seen.append(b)
        return b
r = Rec(F, pid, "quick"); importlib.import_module("props." + pid).run(r)
spans = {}
for b in seen:
    root = F.root_of(b)
    if "/tests/" in root.file or root.file.endswith("tests.rs"): continue
    spans.setdefault(root.file, set()).add((root.lines[0], root.lines[1], root.npath))
OPS = [(r"<=", "<"), (r"(?<![<=>!\-])<(?![<=])(?=\s)", "<="), (r">=", ">"), (r"(?<![=\->])>(?![>=])(?=\s)", ">="), (r"==", "!="), (r"!=", "=="),
       (r"&&", "||"), (r"\|\|(?!\s*\{)", "&&"), (r"\bif !", "if "), (r"\)\?;", ");"), (r"\.is_ok\(\)", ".is_err()"), (r"\.is_some\(\)", ".is_none()"),
       (r"\.is_none\(\)", ".is_some()"), (r"\.is_empty\(\)", ".len() == 1"), (r"\bcontinue;", "{}"), (r"\breturn false;", "return true;"), (r"\btrue\b", "false")]
muts = []
for f, ss in sorted(spans.items()):
    text = open(os.path.join(facts.REPO, f)).read().split("\n")
    for (a, b_, name) in sorted(ss):
        for ln in range(a - 1, min(b_, len(text))):
            line = text[ln]
            st = line.strip()
            if st.startswith(("//", "debug!", "info!", "warn!", "error!", "trace!", "println!", "#[")) or "{:?}" in line or '"' in line and ("!(" in line):
                continue
            for pat, rep in OPS:
                for m in re.finditer(pat, line):
                    muts.append((f, ln, m.start(), m.end(), rep, name))
print("%s: %d anchored functions in %d files, %d candidate mutants" % (pid, sum(len(v) for v in spans.values()), len(spans), len(muts)))
import random
random.Random(1).shuffle(muts)
muts = muts[:limit]
surv = []
for i, (f, ln, s0, s1, rep, name) in enumerate(muts):
    p = os.path.join(facts.REPO, f)
    orig = open(p).read()
    lines = orig.split("\n")
    old = lines[ln]
    lines[ln] = old[:s0] + rep + old[s1:]
    open(p, "w").write("\n".join(lines))
    try:
        rr = subprocess.run([os.path.join(HERE, "check"), pid], stdout=subprocess.PIPE, stderr=subprocess.STDOUT, text=True)
        status = {0: "SURVIVED", 1: "killed", 2: "nocompile"}.get(rr.returncode, "?")
        if rr.returncode == 0:
            surv.append((f, ln + 1, name.split("::")[-1], old.strip(), lines[ln].strip()))
        print("[%d/%d] %s %s:%d %s" % (i + 1, len(muts), status, f, ln + 1, rep), flush=True)
    finally:
        open(p, "w").write(orig)
print("\nSURVIVORS (%d):" % len(surv))
for s in surv:
    print("%s:%d [%s]\n    - %s\n    + %s" % s)
