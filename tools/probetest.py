#!/usr/bin/env python3
"""probetest.py <dir with p*.diff> <check ids...> : apply each probe patch to /repo in turn, run the checks, revert; print a table."""
import glob, os, subprocess, sys
import os as _os; _os.environ["VERIF_NO_EVIDENCE"] = "1"   # never let a run against a modified tree rewrite evidence/
d = os.path.abspath(sys.argv[1]); ids = sys.argv[2:]
rows = []
for p in sorted(glob.glob(os.path.join(d, "p*.diff"))):
    r = subprocess.run(["git", "-C", "/repo", "apply", "--check", p], stdout=subprocess.PIPE, stderr=subprocess.STDOUT, text=True)
    if r.returncode != 0:
        rows.append((os.path.basename(p), "DOES-NOT-APPLY", "")); continue
    subprocess.check_call(["git", "-C", "/repo", "apply", p])
    try:
        hits = []
        for cid in ids:
            r = subprocess.run(["/verif/check", cid], stdout=subprocess.PIPE, stderr=subprocess.STDOUT, text=True)
            rules = sorted({l.split("[")[1].split("]")[0] for l in r.stdout.splitlines() if "[" in l and "]" in l and l.split("[")[1].split("]")[0].startswith("C") and not l.startswith(("KNOWN", "VIOLATION", "    "))})
            if r.returncode == 2:
                hits.append("%s:ERROR(%s)" % (cid, r.stdout.strip().splitlines()[-1][:80] if r.stdout.strip() else ""))
            elif r.returncode == 1:
                hits.append("%s:%s" % (cid, ",".join(rules)))
        rows.append((os.path.basename(p), "CAUGHT" if hits else "missed", " ".join(hits)))
    finally:
        subprocess.check_call(["git", "-C", "/repo", "checkout", "--", "."])
        subprocess.run(["git", "-C", "/repo", "clean", "-fdq", "--", ".", ":!target"], check=False)
for r in rows:
    print("%-10s %-16s %s" % r)
