#!/usr/bin/env python3
"""gen_avoid.py <ID>... : write /tmp/seed/<ID>.avoid.txt — one line per idea already used against the property (seeded changes,
selftest variants, earlier probe sets) — so that a fresh probe agent is steered towards new ground.  Contains no rule names."""
import glob, json, os, sys
V = json.load(open("/verif/selftest/variants.json"))
for pid in sys.argv[1:]:
    lines = []
    for d in sorted(glob.glob("/verif/seeded/%s*" % pid)):
        try:
            m = json.load(open(os.path.join(d, "meta.json")))
            lines.append(" - %s" % " ".join(str(m.get("summary", "")).split())[:400])
        except Exception:
            pass
    for d in sorted(glob.glob("/verif/probes/%s*" % pid)):
        try:
            for it in json.load(open(os.path.join(d, "ideas.json"))):
                lines.append(" - (%s) %s" % (", ".join(it.get("files", []))[:120], " ".join(str(it.get("summary", "")).split())[:400]))
        except Exception:
            pass
    for v in V:
        if v.get("property") == pid:
            lines.append(" - (%s) %s" % (v["file"], v["what"]))
    os.makedirs("/tmp/seed", exist_ok=True)
    open("/tmp/seed/%s.avoid.txt" % pid, "w").write("\n".join(lines) + "\n")
    print(pid, len(lines))
