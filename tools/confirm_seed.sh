#!/bin/sh
# confirm_seed.sh <ID> <cargo test target args, e.g. "-p ant-evm --lib"> -- <test-filter...> : in the scratch worktree /tmp/wt/<ID>,
# confirm that the seeded change compiles, the demonstration fails with it and passes without it, and the crate's existing
# tests behave as before.
ID=$1; TARGET=$2; shift 2; [ "$1" = "--" ] && shift
W=/tmp/wt/$ID; S=${SEED_DIR:-/verif/seeded/$ID}
export CARGO_TARGET_DIR=$W/target CARGO_NET_OFFLINE=true
cd $W || exit 2
git reset -q --hard HEAD; git clean -fdq -e target
git apply $S/patch.diff && git apply $S/demo.diff || { echo "APPLY FAILED"; exit 2; }
echo "== with patch: demo"; cargo test --offline $TARGET -- "$@" 2>&1 | grep -E "^test result|^test .*FAILED$|error(\[|:)" | tail -8
git apply -R $S/patch.diff; sleep 1; touch $(grep "^+++ b/" $S/patch.diff | sed "s|+++ b/||")
echo "== without patch: demo"; cargo test --offline $TARGET -- "$@" 2>&1 | grep -E "^test result|error(\[|:)" | tail -4
git apply -R $S/demo.diff; git apply $S/patch.diff; sleep 1; touch $(grep "^+++ b/" $S/patch.diff | sed "s|+++ b/||")
EX=${EXISTING:-$TARGET}
echo "== with patch only: existing tests ($EX)"; cargo test --offline $EX 2>&1 | grep -E "^test result|error(\[|:)" | tail -3
git reset -q --hard HEAD; git clean -fdq -e target
