#!/bin/sh
# confirm_seed.sh <ID> <crate> <test-filter...> : in the scratch worktree /tmp/wt/<ID>, confirm that the seeded change
# compiles, the demonstration fails with it and passes without it, and the crate's existing lib tests behave as before.
ID=$1; CRATE=$2; shift 2
W=/tmp/wt/$ID; S=/verif/seeded/$ID
export CARGO_TARGET_DIR=$W/target CARGO_NET_OFFLINE=true
cd $W || exit 2
git checkout -q -- . ; git clean -fdq -e target
git apply $S/patch.diff && git apply $S/demo.diff || { echo "APPLY FAILED"; exit 2; }
echo "== with patch: demo"; cargo test --offline -p $CRATE --lib -- "$@" 2>&1 | grep -E "^test result|^test .*(FAILED|ok)$|error(\[|:)" | tail -8
git apply -R $S/patch.diff
echo "== without patch: demo"; cargo test --offline -p $CRATE --lib -- "$@" 2>&1 | grep -E "^test result|error(\[|:)" | tail -4
git apply -R $S/demo.diff; git apply $S/patch.diff
echo "== with patch only: existing lib tests of $CRATE"; cargo test --offline -p $CRATE --lib 2>&1 | grep -E "^test result|error(\[|:)" | tail -3
git checkout -q -- .
