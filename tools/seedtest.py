#!/usr/bin/env python3
"""seedtest.py <patch.diff> <check ids...>: apply a seeded change to /repo, run the checks, undo it straight afterwards."""
import subprocess, sys
import os as _os; _os.environ["VERIF_NO_EVIDENCE"] = "1"   # never let a run against a modified tree rewrite evidence/
patch, ids = sys.argv[1], sys.argv[2:]
subprocess.check_call(["git", "-C", "/repo", "apply", patch])
try:
    for cid in ids:
        r = subprocess.run(["/verif/check", cid], stdout=subprocess.PIPE, stderr=subprocess.STDOUT, text=True)
        lines = [l for l in r.stdout.splitlines() if not l.startswith(("    key", "VIOLATION", "[facts]", "KNOWN-FINDING", "    path"))]
        print("exit=%d" % r.returncode); print("\n".join(l[:300] for l in lines[-6:]))
finally:
    subprocess.check_call(["git", "-C", "/repo", "checkout", "--", "."])
    subprocess.run(["git", "-C", "/repo", "clean", "-fdq"], check=False)  # files a patch added (ignored build output stays)
