#!/bin/sh
# mkwt.sh <WTID> <PROPID> : scratch worktree /tmp/wt/<WTID> of /repo's HEAD with a pre-seeded target dir, the property text in
# /tmp/seed/<WTID>.property.txt and the list of ideas already used in /tmp/seed/<WTID>.avoid.txt (no rule names, nothing else
# from /verif). rmwt.sh removes it again.
set -e
WT=$1; PID=$2
mkdir -p /tmp/wt /tmp/seed/$WT
[ -d /tmp/wt/$WT ] || git -C /repo worktree add -q --detach /tmp/wt/$WT HEAD
if [ ! -d /tmp/wt/$WT/target ]; then
  if [ -d /tmp/wt/_template_target ]; then cp -a /tmp/wt/_template_target /tmp/wt/$WT/target; else cp -a /repo/target /tmp/wt/$WT/target; fi
fi
python3 - "$WT" "$PID" <<'EOF'
import json, sys
wt, pid = sys.argv[1:3]
for l in open('/verif/properties.jsonl'):
    p = json.loads(l)
    if p['id'] == pid:
        t = "%s — %s\n\n%s\n\nQuantifier: %s\n\nWhy the existing tests cannot settle it: %s\n\nAnchors: %s\n" % (
            p['id'], p['title'], p['statement'], json.dumps(p['quantifier']), p['why_tests_cant'], json.dumps(p['anchors'], indent=1))
        open('/tmp/seed/%s.property.txt' % wt, 'w').write(t)
EOF
python3 /verif/tools/gen_avoid.py $PID >/dev/null
cp /tmp/seed/$PID.avoid.txt /tmp/seed/$WT.avoid.txt
echo "ready: /tmp/wt/$WT"
