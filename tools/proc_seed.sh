#!/bin/sh
# proc_seed.sh <WTID> <PID> "<cargo test target args>" <test filter> : confirm a sub-agent's seeded change in its scratch worktree
# (tools/confirm_seed.sh, log kept next to the deliverables) and run the property's check against it (tools/seedtest.py)
WT=$1; PID=$2; TARGET=$3; FILTER=$4
mkdir -p /var/tmp/$WT-tmp
cat /tmp/seed/$WT/patch.diff
TMPDIR=/var/tmp/$WT-tmp SEED_DIR=/tmp/seed/$WT EXISTING="${EXISTING:-$TARGET}" /verif/tools/confirm_seed.sh $WT "$TARGET" -- $FILTER 2>&1 | tee /tmp/seed/$WT/confirm.log | grep -v "^test .* ok$" | tail -12
python3 /verif/tools/seedtest.py /tmp/seed/$WT/patch.diff $PID
rm -rf /var/tmp/$WT-tmp
