#!/usr/bin/env python3
"""benigntest.py <dir with b*.diff> [check ids...] : apply each behaviour-preserving patch to a scratch copy of /repo (never /repo
itself), run the checks (default: all 20) against it and print which rule, if any, raised an alarm.  Any alarm is a false alarm."""
import glob, os, shutil, subprocess, sys, tempfile
import os as _os; _os.environ["VERIF_NO_EVIDENCE"] = "1"   # never let a run against a modified tree rewrite evidence/
d = os.path.abspath(sys.argv[1]); ids = sys.argv[2:] or ["C%02d" % i for i in range(1, 21)]
scratch = tempfile.mkdtemp(prefix="benign-", dir="/tmp")
repo = os.path.join(scratch, "repo")
pristine = os.path.join(scratch, "pristine")       # one snapshot: later edits of /repo cannot leak into the scratch copy
subprocess.check_call(["rsync", "-a", "--exclude", "/target", "--exclude", "/.git", "/repo/", pristine + "/"])
subprocess.check_call(["rsync", "-a", pristine + "/", repo + "/"])
env = dict(os.environ, VERIF_REPO=repo)
rows = []
try:
    for p in sorted(glob.glob(os.path.join(d, "b*.diff"))):
        r = subprocess.run(["patch", "-p1", "--dry-run", "-s", "-d", repo, "-i", p], stdout=subprocess.PIPE, stderr=subprocess.STDOUT, text=True)
        if r.returncode != 0:
            rows.append((os.path.basename(p), "DOES-NOT-APPLY", r.stdout.strip()[:100])); continue
        subprocess.check_call(["patch", "-p1", "-s", "-d", repo, "-i", p])
        try:
            hits = []
            for cid in ids:
                r = subprocess.run(["/verif/check", cid], stdout=subprocess.PIPE, stderr=subprocess.STDOUT, text=True, env=env)
                if r.returncode == 2:
                    hits.append("%s:ERROR(%s)" % (cid, r.stdout.strip().splitlines()[-1][:120] if r.stdout.strip() else ""))
                elif r.returncode == 1:
                    msgs = [l[:300] for l in r.stdout.splitlines() if "[" + cid in l and not l.startswith(("KNOWN", "VIOLATION", "    "))]
                    hits.append("\n      ".join(msgs))
            rows.append((os.path.basename(p), "ALARM" if hits else "silent", "\n      ".join(hits)))
        finally:
            subprocess.check_call(["rsync", "-a", "--delete", pristine + "/", repo + "/"])
        print("%-10s %-16s %s" % rows[-1], flush=True)
finally:
    shutil.rmtree(scratch, ignore_errors=True)
