#!/usr/bin/env python3
"""runvariant.py <variant id>...: apply a selftest variant to /repo in place, run its property's check, revert."""
import json, subprocess, sys
import os as _os; _os.environ["VERIF_NO_EVIDENCE"] = "1"   # never let a run against a modified tree rewrite evidence/
V = {v["id"]: v for v in json.load(open("/verif/selftest/variants.json"))}
for vid in sys.argv[1:]:
    v = V[vid]
    p = "/repo/" + v["file"]; s = open(p).read()
    if v["old"] not in s:
        print(vid, "DOES NOT APPLY"); continue
    open(p, "w").write(s.replace(v["old"], v["new"], 1))
    try:
        r = subprocess.run(["/verif/check", v["property"]], stdout=subprocess.PIPE, stderr=subprocess.STDOUT, text=True)
        rules = sorted({l.split("[")[1].split("]")[0] for l in r.stdout.splitlines() if "] " in l and l.split(":")[0].count("/") >= 0 and "[C" in l and not l.startswith("KNOWN")})
        hit = [x for x in rules if any(x.startswith(e) for e in v["expect"])]
        print(vid, "exit=%d" % r.returncode, "DETECTED" if hit else "MISSED", rules)
    finally:
        subprocess.check_call(["git", "-C", "/repo", "checkout", "--", v["file"]])
