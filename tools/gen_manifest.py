#!/usr/bin/env python3
"""Regenerates MANIFEST.json from props/*.py META blocks (claimed) and tools/not_applicable.json."""
import importlib, json, os, sys
HERE = os.path.dirname(os.path.dirname(os.path.abspath(__file__)))
sys.path.insert(0, os.path.join(HERE, "engine", "py")); sys.path.insert(0, HERE)
props = [json.loads(l)["id"] for l in open(os.path.join(HERE, "properties.jsonl"))]
na = json.load(open(os.path.join(HERE, "tools", "not_applicable.json")))
checks = []; napp = []
for pid in props:
    path = os.path.join(HERE, "props", pid + ".py")
    if os.path.exists(path) and pid not in na:
        m = importlib.import_module("props." + pid)
        meta = m.META
        checks.append({
            "property_id": pid,
            "quick_cmd": "./check %s --tier quick" % pid,
            "thorough_cmd": "./check %s --tier thorough" % pid,
            "evidence_file": "evidence/%s.json" % pid,
            "replay_cmd_template": "./check %s --replay {path}" % pid,
            "engine": "antfacts",
            "level_claimed": {"category": "other", "text": " ".join(meta[k_] for k_ in sorted(meta) if k_.startswith("explanation")).strip(), "design_ref": "DESIGN.md §3 %s" % pid},
            "level_note": "Trusted: rustc nightly MIR construction/callee resolution, the antfacts driver, the rule kinds in engine/py and the "
                          "hand-confirmed tables in props/%s.py; third-party crates are assumed to honour their documented contracts. "
                          "Necessary-condition rules over all CFG paths/call sites of the default-feature build; not a proof of the behavioural statement. %s"
                          % (pid, " ".join("Not decided: " + x + "." for x in meta.get("not_decided", []))),
            "technique": meta.get("technique", "static analysis: custom MIR rules (who-may-call/write/construct, CFG edge-cut gating, dataflow, table agreement) via a rustc_private driver"),
        })
    else:
        napp.append({"property_id": pid, "reason": na.get(pid, "no static clause armed yet")})
man = {
    "version": 1,
    "setup_cmd": "./setup.sh",
    "hooks": {"guard": "maidsafe_safe_network_verif", "enable": "none needed: the analysis reads the source as built (RUSTC_WORKSPACE_WRAPPER=engine/antfacts under cargo +nightly check)",
              "baseline_off_cmd": "cd /repo && cargo nextest run --workspace --no-fail-fast --tool-config-file pb:/w/lib/nextest.toml --profile pb --test-threads 8 --offline",
              "source_commits": [], "add_only": True},
    "engines": [{"name": "antfacts", "path": "engine/antfacts", "serves_properties": [c["property_id"] for c in checks],
                 "kind_free_text": "rustc_private driver dumping analysis MIR (pre coroutine lowering), resolved callees, ADTs, consts and format_args templates of every workspace crate; Python rule kinds in engine/py evaluate property tables in props/"}],
    "checks": checks,
    "not_applicable": napp,
    "notes": "All checks are static: they type-check /repo's working tree with cargo +nightly check through the antfacts wrapper (content-addressed cache under .work/) and evaluate rules over the extracted MIR facts. Known findings: known_findings.txt.",
}
json.dump(man, open(os.path.join(HERE, "MANIFEST.json"), "w"), indent=1)
print("claimed:", [c["property_id"] for c in checks]); print("not_applicable:", [n["property_id"] for n in napp])
