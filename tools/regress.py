#!/usr/bin/env python3
"""regress.py [-j N] [seeded] [probes] [variants] [benign] [benignsets] [--only C05,C07]

Regression run of the checker against everything collected so far, in parallel, on scratch copies of /repo (never /repo itself):

  seeded      seeded/<ID>*/patch.diff      confirmed breaking changes          expected: CAUGHT by the property's check
  probes      probes/<ID>/p*.diff          breaking changes without a demo     expected: CAUGHT (except EXPECTED_MISS below)
  variants    selftest/variants.json       hand-made broken variants           expected: the named rule fires
  benign      selftest/benign.json         hand-made behaviour-preserving      expected: silent (the listed properties)
  benignsets  benign/<ID>/b*.diff          sub-agent behaviour-preserving      expected: silent (all 20 checks)

Each worker owns a scratch repo copy and a private fact cache / cargo target (VERIF_WORK), so extractions run concurrently.
A development tool: not registered in MANIFEST.json, never writes evidence/."""
import glob, json, os, re, shutil, subprocess, sys, tempfile, time
from concurrent.futures import ThreadPoolExecutor
import queue

os.environ["VERIF_NO_EVIDENCE"] = "1"
V = os.path.dirname(os.path.dirname(os.path.abspath(__file__)))
ALL = ["C%02d" % i for i in range(1, 21)]
EXPECTED_MISS = {("probes/C02", "p6.diff"): "changes the version-marker scheme between builds: not a same-build restart",
                 ("probes/C14", "p4.diff"): "only differs for a configured batch size of 0",
                 ("probes/C14", "p6.diff"): "upload retry reporting: outside the property",
                 ("probes/C07-r2", "p2.diff"): "a stricter-than-necessary merge refusal: not decided (the natural repair of the recorded merge-unbounded finding has the same shape)",
                 ("probes/C01-r2", "p1.diff"): "an unnecessary eviction on a duplicate put: the capacity policy (C10.put.prune-last fires), not C01",
                 ("probes/C15-r2", "p5.diff"): "vault read with Quorum::One: only one version is ever received, so 'highest among those received' holds as stated"}

args = sys.argv[1:]
J = 8
only = None
cats = []
i = 0
while i < len(args):
    if args[i] == "-j":
        J = int(args[i + 1]); i += 2
    elif args[i] == "--only":
        only = set(args[i + 1].split(",")); i += 2
    else:
        cats.append(args[i]); i += 1
cats = cats or ["seeded", "probes", "variants", "benign", "benignsets"]

jobs = []   # (label, apply_fn(repo) -> bool, checks, expect, expect_rules)


def patch_job(path):
    def f(repo):
        r = subprocess.run(["patch", "-p1", "-s", "-f", "-d", repo, "-i", path], stdout=subprocess.PIPE, stderr=subprocess.STDOUT, text=True)
        return r.returncode == 0
    return f


if "seeded" in cats:
    for d in sorted(glob.glob(V + "/seeded/C*")):
        pid = os.path.basename(d)[:3]
        if only and pid not in only:
            continue
        p = os.path.join(d, "patch.diff")
        if not os.path.exists(p):
            continue
        checks = [pid]
        try:
            m = json.load(open(os.path.join(d, "meta.json")))
            cr = re.findall(r"\bC\d\d\b", str(m.get("checks_run", "")).split("patch.diff")[-1])
            checks = sorted(set(cr)) or [pid]
        except Exception:
            pass
        jobs.append(("seeded/" + os.path.basename(d), patch_job(p), checks, "caught", None))
if "probes" in cats:
    for d in sorted(glob.glob(V + "/probes/C*")):
        pid = os.path.basename(d)[:3]
        if only and pid not in only:
            continue
        for p in sorted(glob.glob(os.path.join(d, "p*.diff"))):
            key = ("probes/" + os.path.basename(d), os.path.basename(p))
            jobs.append(("%s/%s" % key, patch_job(p), [pid], "miss-ok" if key in EXPECTED_MISS else "caught", None))
if "variants" in cats:
    for v in json.load(open(V + "/selftest/variants.json")):
        if only and v["property"] not in only:
            continue

        def f(repo, v=v):
            p = os.path.join(repo, v["file"]); s = open(p).read()
            if v["old"] not in s:
                return False
            open(p, "w").write(s.replace(v["old"], v["new"], 1))
            return True
        jobs.append(("variant/" + v["id"], f, [v["property"]], "caught", v["expect"]))
if "benign" in cats:
    for bv in json.load(open(V + "/selftest/benign.json")):
        if only and not (set(bv["properties"]) & only):
            continue

        def f(repo, bv=bv):
            p = os.path.join(repo, bv["file"]); text = open(p).read()
            try:
                a = text.index(bv["start"]); b = text.index(bv["end"], a + len(bv["start"]))
            except ValueError:
                return False
            seg = re.sub(bv["pattern"], bv["repl"], text[a:b], flags=re.S if bv.get("flags") == "s" else 0)
            for x, y in bv.get("pre", []):
                seg = seg.replace(x, y)
            if seg == text[a:b]:
                return False
            open(p, "w").write(text[:a] + seg + text[b:])
            return True
        jobs.append(("benign/" + bv["id"], f, bv["properties"], "silent", None))
if "benignsets" in cats:
    for d in sorted(glob.glob(V + "/benign/" + os.environ.get("REGRESS_BENIGN_GLOB", "C*"))):
        pid = os.path.basename(d)[:3]
        if only and pid not in only:
            continue
        for p in sorted(glob.glob(os.path.join(d, "b*.diff"))):
            # REGRESS_BENIGN_CHECKS=related: the property itself and the properties that evaluate its rules (imports), not all 20
            REL = {"C01": ["C02", "C07", "C09", "C10", "C11"], "C02": ["C01"], "C03": ["C13"], "C04": ["C07"], "C05": ["C15"], "C06": ["C07"], "C07": ["C03", "C04", "C06", "C09", "C15"],
                   "C08": ["C09", "C11"], "C09": ["C11", "C07"], "C10": ["C11", "C01", "C08"], "C11": ["C08", "C10"], "C12": ["C15", "C17"], "C13": ["C03"], "C14": ["C15", "C12"], "C15": ["C07", "C14", "C05"],
                   "C16": ["C17"], "C17": ["C16", "C18", "C12"], "C18": ["C17"], "C19": ["C17", "C20"], "C20": ["C19"]}
            chk = sorted({pid} | set(REL.get(pid, []))) if os.environ.get("REGRESS_BENIGN_CHECKS") == "related" else ALL
            jobs.append(("benignset/%s/%s" % (os.path.basename(d), os.path.basename(p)), patch_job(p), chk, "silent", None))

print("%d jobs, %d workers" % (len(jobs), J), flush=True)
scratch = tempfile.mkdtemp(prefix="regress-", dir="/tmp")
pristine = os.path.join(scratch, "pristine")       # one snapshot of /repo: later edits of /repo cannot leak into the scratch copies
subprocess.check_call(["rsync", "-a", "--exclude", "/target", "--exclude", "/.git", "/repo/", pristine + "/"])
q = queue.Queue()
for j in jobs:
    q.put(j)
results = []
# run from a snapshot of the checker too, so that edits made to /verif while the regression runs do not mix into it
VRUN = os.path.join(scratch, "verif")
subprocess.check_call(["rsync", "-a", "--exclude", "/.work", "--exclude", "/.git", "--exclude", "/seeded", "--exclude", "/probes", "--exclude", "/benign",
                       "--exclude", "/evidence", V + "/", VRUN + "/"])


def worker(w):
    base = os.path.join(scratch, "w%d" % w)
    repo, work = os.path.join(base, "repo"), os.path.join(base, "work")
    os.makedirs(work)
    subprocess.check_call(["rsync", "-a", pristine + "/", repo + "/"])
    if os.path.isdir(V + "/.work/target"):
        subprocess.check_call(["cp", "-a", V + "/.work/target", work + "/target"])
    env = dict(os.environ, VERIF_REPO=repo, VERIF_WORK=work, VERIF_NO_EVIDENCE="1")
    while True:
        try:
            label, apply, checks, expect, exp_rules = q.get_nowait()
        except queue.Empty:
            return
        t0 = time.time()
        try:
            if not apply(repo):
                results.append((label, "DOES-NOT-APPLY", "", expect)); continue
            hits, msgs = [], []
            for cid in checks:
                r = subprocess.run([VRUN + "/check", cid], stdout=subprocess.PIPE, stderr=subprocess.STDOUT, text=True, env=env)
                if r.returncode == 2 or r.returncode not in (0, 1):
                    hits.append("%s:ERROR" % cid); msgs.append(r.stdout.strip().splitlines()[-1][:200] if r.stdout.strip() else "")
                elif r.returncode == 1:
                    rules = sorted({l.split("[")[1].split("]")[0] for l in r.stdout.splitlines()
                                    if "[" + cid in l and not l.startswith(("KNOWN", "VIOLATION", "    "))})
                    hits += rules
                    msgs += [l[:260] for l in r.stdout.splitlines() if "[" + cid in l and not l.startswith(("KNOWN", "VIOLATION", "    "))][:3]
            if expect == "silent":
                st = "ALARM" if hits else "silent"
            else:
                got = [h for h in hits if not exp_rules or any(h.startswith(e) for e in exp_rules)]
                st = "CAUGHT" if got else ("missed(expected)" if expect == "miss-ok" else "MISSED")
            results.append((label, st, ",".join(hits) + (" | " + " ; ".join(msgs) if st in ("ALARM",) else ""), expect))
            print("%-34s %-16s %s  (%.0fs)" % (label, st, ",".join(hits)[:150], time.time() - t0), flush=True)
        except Exception as e:
            results.append((label, "EXC", repr(e)[:200], expect))
        finally:
            subprocess.call(["rsync", "-a", "--delete", pristine + "/", repo + "/"])


try:
    with ThreadPoolExecutor(J) as ex:
        list(ex.map(worker, range(J)))
finally:
    shutil.rmtree(scratch, ignore_errors=True)
bad = [r for r in results if r[1] in ("MISSED", "ALARM", "EXC", "DOES-NOT-APPLY")]
print("\n==== summary: %d jobs; unexpected: %d" % (len(results), len(bad)))
for r in sorted(bad):
    print("%-34s %-16s %s" % r[:3])
os.makedirs(V + "/.work/regress", exist_ok=True)
with open(V + "/.work/regress/%d.json" % int(time.time()), "w") as fh:
    json.dump(sorted(results), fh, indent=1)
sys.exit(1 if bad else 0)
